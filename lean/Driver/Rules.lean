/-
  Driver.Rules — protocol commands for the voting rules.
-/
import Driver.Proto
import PabuModel.MES
import PabuModel.Greedy
import PabuModel.Phragmen
import PabuModel.MaxWelfare
namespace Pabu.Driver
open Pabu

def mkVCtx (a : Args) (I : Inst) (P : Profile) : VCtx :=
  { vs := List.range P.length, m := fun i => (P[i]?.map Prod.snd).getD 0, u := parseUtil a I P }

def mkOrder (a : Args) (I : Inst) (P : Profile) : List Pid → Except Err (List Pid) :=
  (parseTie (a.get "tie")).order I.cost P.approvalScore

def totalSatFn (a : Args) (I : Inst) (P : Profile) : List Pid → Rat :=
  if a.has "S" then
    -- table of set-function values: per voter, 2^k values indexed by the bitmask over project ids
    let rows : List (List Rat) := (splitNE (a.get "S") "|").map (fun r => (splitNE r ",").map ratD)
    fun l =>
      let mask := (dedup l).foldl (fun acc p => acc + 2 ^ p) 0
      sumOver (List.range P.length) (fun i => ((P[i]?.map Prod.snd).getD 0 : Nat) * (rows.getD i []).getD mask 0)
  else if a.has "U" then
    let u := parseUtil a I P
    fun l => sumOver (List.range P.length) (fun i => ((P[i]?.map Prod.snd).getD 0 : Nat) * sumOver l (u i))
  else
    match Measure.ofString? (a.get "sat") with
    | some μ => fun l => sumOver P (fun e => (e.2 : Nat) * sat μ I P e.1 l)
    | none => fun _ => 0

def cmdMes (a : Args) : String :=
  let I := parseInst a
  let P := parseProfile a
  let V := mkVCtx a I P
  let init := parseIds (a.get "init")
  let order := mkOrder a I P
  let Isorted : Inst := I
  if a.has "inc" then
    let inc := ratD (a.get "inc")
    let fuel := natD (a.get "fuel")
    let b0 := I.budget / (MES.numVoters V : Nat)
    if a.get "res" == "0" then
      showOutcomes (MES.iteratedAll V Isorted init order inc fuel b0 [init ++ MES.zeroCost V I init])
    else showOutcome (MES.iterated V Isorted init order inc fuel b0 (init ++ MES.zeroCost V I init))
  else if a.get "res" == "0" then showOutcomes (MES.runAll V Isorted init order)
  else showOutcome (MES.run V Isorted init order)

def showIteration (it : MES.Iteration) : String :=
  showRats it.before ++ ";" ++ (match it.selected with | some p => toString p | none => "-") ++ ";" ++
    (match it.rho with | some r => showRat r | none => "-") ++ ";" ++ showRats it.after

/-- recorded run: purchase order and the iterations -/
def cmdMesTrace (a : Args) : String :=
  let I := parseInst a
  let P := parseProfile a
  let V := mkVCtx a I P
  let init := parseIds (a.get "init")
  let order := mkOrder a I P
  let b0 := if a.has "b0" then ratD (a.get "b0") else I.budget / (MES.numVoters V : Nat)
  match MES.trace V I.cost order (MES.initPool V I init).length (MES.initState V I init b0) with
  | .error e => "err " ++ e.toString
  | .ok its => "ok " ++ String.intercalate " " (its.map showIteration)

def cmdGreedy (a : Args) : String :=
  let I := parseInst a
  let P := parseProfile a
  let init := parseIds (a.get "init")
  let order := mkOrder a I P
  if a.get "path" == "additive" then
    let u := parseUtil a I P
    let score : Pid → Rat := fun p => sumOver (List.range P.length) (fun i => ((P[i]?.map Prod.snd).getD 0 : Nat) * u i p)
    if a.get "details" == "1" then
      match Greedy.additiveDetails score I init order with
      | .error e => "err " ++ e.toString
      | .ok ds => "ok " ++ (if ds.isEmpty then "-" else String.intercalate " " (ds.map (fun d =>
          s!"{d.project};{match d.score with | some q => showRat q | none => "inf"};{match d.remaining with | some r => showRat r | none => "-"}")))
    else
    showOutcome (Greedy.additive score I init order)
  else
    let tsat := totalSatFn a I P
    if a.get "res" == "0" then showOutcomes (Greedy.generalAll tsat I init order)
    else showOutcome (Greedy.general tsat I init order)

def cmdPhragmen (a : Args) : String :=
  let I := parseInst a
  let P := parseProfile a
  let init := parseIds (a.get "init")
  let order := mkOrder a I P
  let loadsL := (splitNE (a.get "loads") ",").map ratD
  let C : Phragmen.Ctx :=
    { vs := List.range P.length, m := fun i => (P[i]?.map Prod.snd).getD 0,
      app := fun i p => (P[i]?.map (fun e => e.1.mem p)).getD false,
      cost := I.cost, budget := I.budget }
  let loads : Nat → Rat := fun i => loadsL.getD i 0
  if a.get "res" == "0" then showOutcomes (Phragmen.runAll C I.projects init loads order)
  else showOutcome (Phragmen.run C I.projects init loads order)

def profitFn (a : Args) (I : Inst) (P : Profile) : Pid → Rat :=
  let u := parseUtil a I P
  fun p => sumOver (List.range P.length) (fun i => ((P[i]?.map Prod.snd).getD 0 : Nat) * u i p)

def cmdMaxw (a : Args) : String :=
  let I := parseInst a
  let P := parseProfile a
  let init := parseIds (a.get "init")
  let profit := profitFn a I P
  match a.get "algo" with
  | "pd" =>
    let W := MaxWelfare.primalDual I profit init I.projects
    "ok " ++ showIds (sortIds W) ++ " " ++ showRat (sumOver W profit)
  | "opt" => "ok " ++ showRat (MaxWelfare.optValue I profit init)
  | _ => showOutcomes (.ok (MaxWelfare.allOptima I profit init))

end Pabu.Driver
