/-
  Driver.Compose — `compose kind=welfare|popularity R=<ids>|<ids>… sat=<measure>` (+ election tokens)
-/
import Driver.Rules
import PabuModel.Composition
namespace Pabu.Driver
open Pabu

def showLists (ls : List (List Pid)) : String :=
  "ok " ++ String.intercalate "|" (ls.map (fun l => String.intercalate "," (l.map toString)))

def voterSat (a : Args) (I : Inst) (P : Profile) (i : Nat) : List Pid → Rat :=
  if a.has "S" then
    let rows : List (List Rat) := (splitNE (a.get "S") "|").map (fun r => (splitNE r ",").map ratD)
    fun l => (rows.getD i []).getD ((dedup l).foldl (fun acc p => acc + 2 ^ p) 0) 0
  else if a.has "U" then
    let u := parseUtil a I P
    fun l => sumOver l (u i)
  else match Measure.ofString? (a.get "sat"), P[i]? with
    | some μ, some e => fun l => sat μ I P e.1 l
    | _, _ => fun _ => 0

def cmdCompose (a : Args) : String :=
  let I := parseInst a
  let P := parseProfile a
  let rs : List (List Pid) := (a.get "R").splitOn "|" |>.map parseIds
  let voters : List ((List Pid → Rat) × Nat) := (List.range P.length).map (fun i => (voterSat a I P i, (P[i]?.map Prod.snd).getD 0))
  if a.get "kind" == "popularity" then showLists (Composition.popularityCmp voters rs)
  else showLists (Composition.welfareCmp (fun l => sumOver voters (fun v => (v.2 : Nat) * v.1 l)) rs)

end Pabu.Driver
