/-
  Driver.WelfareILP — command `welfareilp`: the integer programs the model poses, given the solver's answers.

  `welfareilp B= P= T= V= sat=|U= init= mode=res|irres ans=<a0>|<a1>|…`
  `welfareilp P= mode=knap L=<ids> Q=<budget> val=cost|count|tab W=id:value,… ans=<a0>`
  An answer is the list of variables at one (`0.2.5`, `-` for none of them) or `none` (no optimal solution).
  Without `ans=` the model's own brute-force solver answers.
  Output: `ok out=<result> progs=<program>#<program>…`; a program is `v:<vars>;o:<objective terms>;c:<constr>&<constr>…`,
  a constraint `id:coeff,…<=rhs` in canonical form (`Constr.canon`).
-/
import Driver.Rules
import PabuModel.WelfareILP
namespace Pabu.Driver
open Pabu Pabu.WelfareILP

def wilpShowSenseW : Sense → String
  | .le => "<="
  | .ge => ">="
  | .eq => "=="

def wilpShowTerms (t : List (Pid × Rat)) : String :=
  String.intercalate "," (t.map (fun e => toString e.1 ++ ":" ++ showRat e.2))

def wilpShowConstr (c : Constr) : String :=
  wilpShowTerms c.canon.terms ++ wilpShowSenseW c.canon.sense ++ showRat c.canon.rhs

def wilpShowProgram (P : Program) : String :=
  "v:" ++ String.intercalate "." (P.vars.map toString) ++ ";o:" ++
    wilpShowTerms (sortTerms (P.obj.filter (fun e => !decide (e.2 = 0)))) ++ ";c:" ++
    String.intercalate "&" (P.constrs.map wilpShowConstr)

def wilpShowPrograms (ps : List Program) : String := String.intercalate "#" (ps.map wilpShowProgram)

def wilpParseAnswers (s : String) : List (Option (List Pid)) :=
  (splitNE s "|").map (fun t => if t == "none" then none else if t == "-" then some [] else some (parseIds t))

/-- the k-th call gets the k-th recorded answer of the real solver -/
def wilpScriptOracle (answers : List (Option (List Pid))) : Oracle :=
  fun k _ => match answers[k]? with
    | some (some s) => some (indicator s)
    | _ => none

def wilpOracleOf (a : Args) : Oracle :=
  if a.has "ans" then wilpScriptOracle (wilpParseAnswers (a.get "ans")) else fun _ => bruteSolve

def wilpShowAllocs (ls : List (List Pid)) : String :=
  if ls.isEmpty then "-" else String.intercalate "|" (ls.map (fun l => if l.isEmpty then "-" else showIds (sortIds l)))

def cmdWelfareILP (a : Args) : String :=
  match a.get "mode" with
  | "knap" =>
    let I := parseInst a
    let l := parseIds (a.get "L")
    let budget := ratD (a.get "Q")
    let tab := parseProjects (a.get "W")
    let value : Pid → Rat :=
      match a.get "val" with
      | "count" => fun _ => 1
      | "tab" => lookupRat tab
      | _ => I.cost
    let ask := wilpOracleOf a
    let progs := if l = [] then [] else [knapProgram I.cost value l budget]
    (match knapILP (ask 0) I.cost value l budget with
     | .ok v => "ok out=" ++ showRat v
     | .error e => "err " ++ e.toString) ++ " progs=" ++ wilpShowPrograms progs
  | "res" =>
    let I := parseInst a
    let P := parseProfile a
    let init := parseIds (a.get "init")
    let score := profitFn a I P
    let ask := wilpOracleOf a
    (match resolute (ask 0) I score init with
     | .ok l => "ok out=" ++ wilpShowAllocs [l]
     | .error e => "err " ++ e.toString) ++ " progs=" ++
      wilpShowPrograms (if (freeVars I init).isEmpty then [] else [baseProgram I score init])
  | _ =>
    let I := parseInst a
    let P := parseProfile a
    let init := parseIds (a.get "init")
    let score := profitFn a I P
    let ask := wilpOracleOf a
    let run := irresoluteRun ask I score init
    (match finish init run.result with
     | .ok ls => "ok out=" ++ wilpShowAllocs ls
     | .error e => "err " ++ e.toString) ++ " progs=" ++ wilpShowPrograms run.programs

end Pabu.Driver
