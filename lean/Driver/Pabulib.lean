/-
  Driver.Pabulib — `pabulib R=<rows>`: parse CSV-split rows with the model, answer with a canonical
  rendering of the election and of `writeRows` of it.

  Encoding of a field: ASCII letters, digits and `_ . - /` stand for themselves, every other character
  is `%<hex code point>;`.  Lists are *terminated*, not separated (so the empty list, the list holding
  one empty string, … stay distinct): a row is its fields each followed by `,`; rows are each followed
  by `|`.

  Answer: `err <class>` or
  `ok T=<vote type> B=<budget> L=<8 limits, x = None, each followed by ','> M=<k~v+…> P=<project|…> V=<vote|…> W=<rows>`
  project = `name:cost:cat+…:target+…:k~v+…`, vote = `a|c|o:item+…:points+…:k~v+…`.
-/
import Driver.Proto
import PabuModel.Pabulib
namespace Pabu.Driver
open Pabu.Pabulib

def safeChar (c : Char) : Bool :=
  c.isAlphanum || c == '_' || c == '.' || c == '-' || c == '/'

def hexDigit (n : Nat) : Char := if n < 10 then Char.ofNat (48 + n) else Char.ofNat (87 + n)

def toHex (n : Nat) : List Char :=
  if n < 16 then [hexDigit n] else toHex (n / 16) ++ [hexDigit (n % 16)]
decreasing_by omega

def escAcc (acc : List Char) (c : Char) : List Char :=
  if safeChar c then c :: acc else (';' :: (toHex c.toNat).reverse) ++ ('%' :: acc)

/-- escaped form, reversed onto `acc` -/
def escRev (s : Str) (acc : List Char) : List Char := s.foldl escAcc acc

def hexVal (c : Char) : Nat :=
  if c.isDigit then c.toNat - 48 else if 'a' ≤ c ∧ c ≤ 'f' then c.toNat - 87 else c.toNat - 55

/-- decode one escaped atom -/
partial def unesc (s : List Char) (acc : List Char) : List Char :=
  match s with
  | [] => acc.reverse
  | '%' :: r =>
    let hex := r.takeWhile (· ≠ ';')
    let rest := (r.dropWhile (· ≠ ';')).drop 1
    unesc rest (Char.ofNat (hex.foldl (fun a c => a * 16 + hexVal c) 0) :: acc)
  | c :: r => unesc r (c :: acc)

/-- split a terminated list: `a,b,` ↦ [a, b]; `` ↦ [] -/
def splitTerm (t : Char) (s : List Char) : List (List Char) :=
  let rec go (s : List Char) (cur : List Char) (acc : List (List Char)) : List (List Char) :=
    match s with
    | [] => acc.reverse
    | c :: r => if c = t then go r [] (cur.reverse :: acc) else go r (c :: cur) acc
  go s [] []

def decodeRows (s : String) : List (List Str) :=
  (splitTerm '|' s.toList).map (fun row => (splitTerm ',' row).map (fun f => unesc f []))

/-- a tiny reversed-output builder: the output so far, reversed -/
abbrev Out := List Char

def oLit (o : Out) (s : String) : Out := s.toList.reverse ++ o
def oStr (o : Out) (s : Str) : Out := escRev s o
def oRaw (o : Out) (s : Str) : Out := s.reverse ++ o
def oCh (o : Out) (c : Char) : Out := c :: o

def outStrs (o : Out) (l : List Str) : Out := l.foldl (fun o s => oCh (oStr o s) '+') o
def outRats (o : Out) (l : List Rat) : Out := l.foldl (fun o q => oCh (oRaw o (Pabulib.showRat q)) '+') o
def outMap (o : Out) (m : Map Str) : Out :=
  m.foldl (fun o kv => oCh (oStr (oCh (oStr o kv.1) '~') kv.2) '+') o

def outOptInt (o : Out) (x : Option Int) : Out :=
  match x with
  | none => oCh (oCh o 'x') ','
  | some i => oCh (oRaw o (showInt i)) ','

def outOptRat (o : Out) (x : Option Rat) : Out :=
  match x with
  | none => oCh (oCh o 'x') ','
  | some q => oCh (oRaw o (Pabulib.showRat q)) ','

def outLimits (o : Out) (l : Limits) : Out :=
  let o := outOptInt o l.minLen
  let o := outOptInt o l.maxLen
  let o := outOptRat o l.minCost
  let o := outOptRat o l.maxCost
  let o := outOptRat o l.minScore
  let o := outOptRat o l.maxScore
  let o := outOptRat o l.minTotal
  outOptRat o l.maxTotal

def outProject (o : Out) (p : Str × ProjData) : Out :=
  let o := oCh (oStr o p.1) ':'
  let o := oCh (oRaw o (Pabulib.showRat p.2.cost)) ':'
  let o := oCh (outStrs o p.2.cats) ':'
  let o := oCh (outStrs o p.2.targets) ':'
  oCh (outMap o p.2.md) '|'

def outVote (o : Out) (v : Vote) : Out :=
  let o1 := match v.ballot with
    | .app s => oCh (outStrs (oLit o "a:") s) ':'
    | .card m => outRats (oCh (outStrs (oLit o "c:") (keysOf m)) ':') (m.map Prod.snd)
    | .ord l => oCh (outStrs (oLit o "o:") l) ':'
  oCh (outMap (oCh o1 ':') v.md) '|'

def outRows (o : Out) (rows : List (List Str)) : Out :=
  rows.foldl (fun o row => oCh (row.foldl (fun o f => oCh (oStr o f) ',') o) '|') o

def renderElection (e : Election) : String :=
  let o : Out := oLit [] "ok T="
  let o := oLit (oRaw o e.vtype.name) " B="
  let o := oLit (oRaw o (Pabulib.showRat e.budget)) " L="
  let o := oLit (outLimits o e.limits) " M="
  let o := oLit (outMap o e.md) " P="
  let o := oLit (e.projects.foldl outProject o) " V="
  let o := oLit (e.votes.foldl outVote o) " W="
  let o := outRows o (writeRows e)
  String.ofList o.reverse

def cmdPabulib (a : Args) : String :=
  match parseRows (decodeRows (a.get "R")) with
  | .error e => "err " ++ e.toString
  | .ok e => renderElection e

end Pabu.Driver
