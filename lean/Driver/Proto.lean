/-
  Driver.Proto — line protocol: `cmd key=value key=value …` in, one answer line out.
-/
import PabuModel.Sat
import PabuModel.RoundRule
namespace Pabu.Driver
open Pabu

abbrev Args := List (String × String)

def parseArgs (toks : List String) : Args :=
  toks.filterMap (fun t => match t.splitOn "=" with
    | [k, v] => some (k, v)
    | [k] => some (k, "")
    | _ => none)

def Args.get (a : Args) (k : String) : String :=
  match a.find? (fun e => e.1 == k) with
  | some e => e.2
  | none => ""

def Args.has (a : Args) (k : String) : Bool := (a.find? (fun e => e.1 == k)).isSome

def parseRat (s : String) : Option Rat :=
  match s.splitOn "/" with
  | [n] => n.toInt?.map (fun i => (i : Rat))
  | [n, d] => do
    let a ← n.toInt?
    let b ← d.toNat?
    if b = 0 then none else some (mkRat a b)
  | _ => none

def ratD (s : String) : Rat := (parseRat s).getD 0
def natD (s : String) : Nat := s.toNat?.getD 0

def showRat (q : Rat) : String := if q.den = 1 then toString q.num else s!"{q.num}/{q.den}"

def splitNE (s : String) (sep : String) : List String := if s == "" then [] else s.splitOn sep

def parseIds (s : String) : List Pid := (splitNE s ".").map natD

def showIds (l : List Pid) : String := String.intercalate "," (l.map toString)

def showRats (l : List Rat) : String := String.intercalate "," (l.map showRat)

/-- `P=id:cost,id:cost` in the enumeration order of the implementation -/
def parseProjects (s : String) : List (Pid × Rat) :=
  (splitNE s ",").map (fun t => match t.splitOn ":" with
    | [i, c] => (natD i, ratD c)
    | _ => (0, 0))

def lookupRat (l : List (Pid × Rat)) (p : Pid) : Rat :=
  match l.find? (fun e => e.1 == p) with
  | some e => e.2
  | none => 0

def parseInst (a : Args) : Inst :=
  let ps := parseProjects (a.get "P")
  { projects := ps.map Prod.fst, cost := lookupRat ps, budget := ratD (a.get "B") }

def parseBallot (ty : String) (s : String) : Ballot :=
  match ty with
  | "card" => .card ((splitNE s ".").map (fun t => match t.splitOn "~" with
      | [i, c] => (natD i, ratD c)
      | _ => (0, 0)))
  | "ord" => .ord (parseIds s)
  | _ => .app (parseIds s)

/-- `V=m*ballot|m*ballot` -/
def parseProfile (a : Args) : Profile :=
  (splitNE (a.get "V") "|").map (fun e => match e.splitOn "*" with
    | [m, b] => (parseBallot (a.get "T") b, natD m)
    | _ => (.app [], 1))

def parseTie (s : String) : Tie :=
  match s with
  | "app_score" => .appScore
  | "min_cost" => .minCost
  | "max_cost" => .maxCost
  | "refuse" => .refuse
  | "lexico" => .lexico
  | _ => if s.startsWith "perm:" then .perm (parseIds ((s.splitOn ":").getD 1 "")) else .lexico

/-- utilities: by measure name (model computes) or by table `U=row|row`, row = `v,v,…` indexed by id -/
def parseUtil (a : Args) (I : Inst) (P : Profile) : Nat → Pid → Rat :=
  if a.has "U" then
    let rows : List (List Rat) := (splitNE (a.get "U") "|").map (fun r => (splitNE r ",").map ratD)
    fun i p => (rows.getD i []).getD p 0
  else
    match Measure.ofString? (a.get "sat") with
    | some μ => fun i p => match P[i]? with
      | some e => satProject μ I P e.1 p
      | none => 0
    | none => fun _ _ => 0

def showOutcome (r : Except Err (List Pid)) : String :=
  match r with
  | .ok l => "ok " ++ showIds (sortIds l)
  | .error e => "err " ++ e.toString

def lexLe : List Nat → List Nat → Bool
  | [], _ => true
  | _ :: _, [] => false
  | x :: xs, y :: ys => if x < y then true else if y < x then false else lexLe xs ys

def showOutcomes (r : Except Err (List (List Pid))) : String :=
  match r with
  | .ok ls => "ok " ++ String.intercalate "|" ((sortLe lexLe (ls.map sortIds)).map showIds)
  | .error e => "err " ++ e.toString

end Pabu.Driver
