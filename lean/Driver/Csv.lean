/-
  Driver.Csv — the text layer of the Pabulib model.

  `csvread T=<text>`            → `ok R=<rows>` | `err <fieldLimit|newline> R=<rows delivered before the error>`
  `csvread T=<text> lines=py`   → the same for the former reading (`str.splitlines()` before the reader)
  `csvwrite R=<rows>`           → `ok T=<text>`
  `pabulibtext T=<text>`        → as `pabulib R=<rows>` (see Driver/Pabulib.lean), the rows being read from the
                                  text by the model; a reader error is `err csv`

  `<text>` is escaped like a field of `R=` (Driver/Pabulib.lean): ASCII letters, digits and `_ . - /` stand for
  themselves, every other character is `%<hex code point>;`.
-/
import Driver.Pabulib
import PabuModel.Csv
namespace Pabu.Driver
open Pabu.Pabulib Pabu.Csv

def decodeText (s : String) : List Char := unesc s.toList []

def csvErrName : CsvErr → String
  | .fieldLimit => "fieldLimit"
  | .newline => "newline"

def renderRead (r : List (List Str) × Option CsvErr) : String :=
  match r with
  | (rows, none) => String.ofList (outRows (oLit [] "ok R=") rows).reverse
  | (rows, some e) => String.ofList (outRows (oLit [] ("err " ++ csvErrName e ++ " R=")) rows).reverse

def cmdCsvRead (a : Args) : String :=
  if a.get "lines" == "py" then renderRead (csvReadSplitlines (decodeText (a.get "T")))
  else renderRead (csvReadE (decodeText (a.get "T")))

def cmdCsvWrite (a : Args) : String :=
  String.ofList (oStr (oLit [] "ok T=") (csvWrite (decodeRows (a.get "R")))).reverse

def cmdPabulibText (a : Args) : String :=
  match parseText (decodeText (a.get "T")) with
  | .error (.csv _) => "err csv"
  | .error (.parse e) => "err " ++ e.toString
  | .ok e => renderElection e

end Pabu.Driver
