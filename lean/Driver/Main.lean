/-
  pabu_driver — reads one case per line on stdin, prints one answer line per case.
-/
import Driver.Rules
import Driver.Exhaust
import Driver.Compose
import Driver.Stats
import Driver.InstSat
import Driver.JR
import Driver.Price
import Driver.PriceMIP
import Driver.PriceMIPRelax
import Driver.Multi
import Driver.Containers
import Driver.Effects
import Driver.Pabulib
import Driver.Csv
import Driver.MESLazy
import Driver.MESAnalytics
import Driver.WelfareILP
open Pabu Pabu.Driver

def dispatch (line : String) : String :=
  match (line.trimAscii.toString.splitOn " ").filter (· ≠ "") with
  | [] => "bad-op"
  | cmd :: rest =>
    let a := parseArgs rest
    match cmd with
    | "mes" => cmdMes a
    | "mestrace" => cmdMesTrace a
    | "meslazy" => cmdMesLazy a
    | "mesanalytics" => cmdMesAnalytics a
    | "greedy" => cmdGreedy a
    | "phragmen" => cmdPhragmen a
    | "maxw" => cmdMaxw a
    | "welfareilp" => cmdWelfareILP a
    | "exhaust" => cmdExhaust a
    | "compose" => cmdCompose a
    | "stats" => cmdStats a
    | "inst" => cmdInst a
    | "sat" => cmdSat a
    | "jr" => cmdJR a
    | "cohesive" => cmdCohesive a
    | "price" => cmdPrice a
    | "round2" => cmdRound2 a
    | "pricerelax" => cmdPriceRelax a
    | "pricemip" => cmdPriceMIP a
    | "pricemipsat" => cmdPriceMIPSat a
    | "pricemiprelax" => cmdPriceMIPRelax a
    | "pricemiprelaxsat" => cmdPriceMIPRelaxSat a
    | "multi" => cmdMulti a
    | "ops" => cmdOps a
    | "counter" => cmdCounter a
    | "effects" => cmdEffects a
    | "pabulib" => cmdPabulib a
    | "csvread" => cmdCsvRead a
    | "csvwrite" => cmdCsvWrite a
    | "pabulibtext" => cmdPabulibText a
    | _ => "bad-op"

partial def loop (h : IO.FS.Stream) (out : IO.FS.Stream) : IO Unit := do
  let line ← h.getLine
  if line.isEmpty then return ()
  out.putStrLn (dispatch line)
  loop h out

def main : IO Unit := do
  let out ← IO.getStdout
  loop (← IO.getStdin) out
  out.flush
