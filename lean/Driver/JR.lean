/-
  Driver.JR — protocol command `jr`: the ten proportionality checkers as the code enumerates groups,
  and the ten definitions over the expanded voter list.
  `jr B= P= T=app|card V= sat=<measure> W=<ids>`  ->  `ok <10 checker bits> <10 definition bits>`
  `cohesive B= P= T=app|card V=`  ->  `ok <entry indices>:<project ids>;…` — `JR.cohesiveGroupsBy` over the entries tagged with
     their position (entries as `enumerate(profile)` sees them), in the order of the enumeration
-/
import Driver.Proto
import PabuModel.JR
namespace Pabu.Driver
open Pabu

def bitsOf (l : List Bool) : String := String.ofList (l.map (fun b => if b then '1' else '0'))

def cmdJR (a : Args) : String :=
  let I := parseInst a
  let P := parseProfile a
  let W := parseIds (a.get "W")
  let card := a.get "T" == "card"
  match Measure.ofString? (a.get "sat") with
  | none => "bad-sat"
  | some μ =>
    let M : List (JR.Voter × Nat) := P.map (fun e => ({ app := e.1.mem, u := satProject μ I P e.1 }, e.2))
    let E : JR.Setting :=
      { n := P.numBallots, budget := I.budget, cost := I.cost, projects := I.projects,
        full := satProject μ I P (.app I.projects) }
    "ok " ++ bitsOf (JR.notions.map (fun ku => JR.checker E M card ku.1 ku.2 W)) ++ " " ++
      bitsOf (JR.notions.map (fun ku => JR.definition E M card ku.1 ku.2 W))

def cmdCohesive (a : Args) : String :=
  let I := parseInst a
  let P := parseProfile a
  let card := a.get "T" == "card"
  let M : List (Nat × (JR.Voter × Nat)) :=
    (List.range P.length).filterMap (fun i => P[i]?.map (fun e => (i, ({ app := e.1.mem, u := fun _ => 0 }, e.2))))
  let E : JR.Setting :=
    { n := P.numBallots, budget := I.budget, cost := I.cost, projects := I.projects, full := fun _ => 0 }
  let showIds (l : List Nat) : String := ".".intercalate (l.map toString)
  "ok " ++ ";".intercalate ((JR.cohesiveGroupsBy E card (fun x => x.2) M).map
    (fun x => showIds (x.1.map (fun y => y.1)) ++ ":" ++ showIds x.2))

end Pabu.Driver
