/-
  Driver.Multi — protocol command `multi` (C16): run a multiprofile history in the model.

    multi T=app|card|ord I=<ballot>|<ballot>… O=a:<ballot>;e:<ballot>|<ballot>;…

  ballots are construction histories: approval `3.1.2` (adds), cardinal `2~1.0~5/2` (assignments), ordinal `2.0.1`
  (appends); the empty ballot is `_`.  Answer: `ok <num_ballots> <entries> <m>*<frozen>|<m>*<frozen>…` in the
  order of the counter (first occurrence).
-/
import Driver.Proto
import PabuModel.Multi
namespace Pabu.Driver
open Pabu Pabu.Multi

def parseRaw (ty : String) (s : String) : Raw :=
  let body := if s == "_" then "" else s
  match ty with
  | "card" => .card ((splitNE body ".").map (fun t => match t.splitOn "~" with
      | [i, c] => (natD i, ratD c)
      | _ => (0, 0)))
  | "ord" => .ord (parseIds body)
  | _ => .app (parseIds body)

def parseRaws (ty : String) (s : String) : List Raw := (splitNE s "|").map (parseRaw ty)

def parseOp (ty : String) (s : String) : Op :=
  if s.startsWith "a:" then .append (parseRaw ty (s.drop 2).toString)
  else .extend (parseRaws ty (s.drop 2).toString)

def showFrozen : Ballot → String
  | .app l => if l.isEmpty then "_" else String.intercalate "." (l.map toString)
  | .card l => if l.isEmpty then "_" else String.intercalate "." (l.map (fun e => s!"{e.1}~{showRat e.2}"))
  | .ord l => if l.isEmpty then "_" else String.intercalate "." (l.map toString)

def cmdMulti (a : Args) : String :=
  let ty := a.get "T"
  let init := parseRaws ty (a.get "I")
  let ops := (splitNE (a.get "O") ";").map (parseOp ty)
  let M := run init ops
  s!"ok {total M} {M.length} " ++ String.intercalate "|" (M.map (fun e => s!"{e.2}*{showFrozen e.1}"))

end Pabu.Driver
