/-
  Driver.Exhaust — protocol commands for the exhaustion wrappers and rule composition.
-/
import Driver.Rules
import PabuModel.Exhaustion
namespace Pabu.Driver
open Pabu

/-- a base rule given as `mes:<sat>` | `greedy:<sat>` | `phragmen`, run on budget `b` from `init` -/
def baseRule (spec : String) (a : Args) (I0 : Inst) (P : Profile) (b : Rat) (init : List Pid) : Except Err (List Pid) :=
  let I : Inst := { I0 with budget := b }
  let order := mkOrder a I P
  match spec.splitOn ":" with
  | ["mes", s] =>
    let a' : Args := ("sat", s) :: a.filter (fun e => e.1 != "sat" && e.1 != "U")
    let V := mkVCtx a' I0 P   -- the measure is attached to the profile's own (original) instance
    (MES.run V I init order).map sortIds
  | ["greedy", s] =>
    let a' : Args := ("sat", s) :: a.filter (fun e => e.1 != "sat" && e.1 != "U" && e.1 != "S")
    Greedy.general (totalSatFn a' I0 P) I init order
  | _ =>
    let C : Phragmen.Ctx :=
      { vs := List.range P.length, m := fun i => (P[i]?.map Prod.snd).getD 0,
        app := fun i p => (P[i]?.map (fun e => e.1.mem p)).getD false, cost := I.cost, budget := I.budget }
    (Phragmen.run C I.projects init (fun _ => 0) order).map sortIds

def baseRuleAll (spec : String) (a : Args) (I0 : Inst) (P : Profile) (b : Rat) (init : List Pid) : Except Err (List (List Pid)) :=
  let I : Inst := { I0 with budget := b }
  let order := mkOrder a I P
  match spec.splitOn ":" with
  | ["mes", s] =>
    let a' : Args := ("sat", s) :: a.filter (fun e => e.1 != "sat" && e.1 != "U")
    let V := mkVCtx a' I0 P   -- the measure is attached to the profile's own (original) instance
    MES.runAll V I init order
  | ["greedy", s] =>
    let a' : Args := ("sat", s) :: a.filter (fun e => e.1 != "sat" && e.1 != "U" && e.1 != "S")
    Greedy.generalAll (totalSatFn a' I0 P) I init order
  | _ =>
    let C : Phragmen.Ctx :=
      { vs := List.range P.length, m := fun i => (P[i]?.map Prod.snd).getD 0,
        app := fun i p => (P[i]?.map (fun e => e.1.mem p)).getD false, cost := I.cost, budget := I.budget }
    Phragmen.runAll C I.projects init (fun _ => 0) order

/-- `exhaust mode=increase rule=<spec> step= bound= stop=1|0 fuel=`  /  `exhaust mode=completion rules=<spec>;<spec>` -/
def cmdExhaust (a : Args) : String :=
  let I := parseInst a
  let P := parseProfile a
  let init := parseIds (a.get "init")
  let res := a.get "res" != "0"
  let feas := fun W => I.isFeasible W
  let exh := fun W => I.isExhaustive W
  if a.get "mode" == "increase" then
    let step := ratD (a.get "step")
    let bound := ratD (a.get "bound")
    let stop := a.get "stop" != "0"
    let fuel := natD (a.get "fuel")
    if res then
      showOutcome (Exhaustion.budgetIncrease (fun b => baseRule (a.get "rule") a I P b init) feas exh stop step bound fuel I.budget init)
    else
      showOutcomes (Exhaustion.budgetIncreaseAll (fun b => baseRuleAll (a.get "rule") a I P b init) feas exh stop step bound fuel I.budget [init])
  else
    let specs := splitNE (a.get "rules") ";"
    if res then
      showOutcome (Exhaustion.completion exh (specs.map (fun s => fun cur => baseRule s a I P I.budget cur)) init)
    else
      showOutcomes (Exhaustion.completionAll exh (specs.map (fun s => fun cur => baseRuleAll s a I P I.budget cur)) [] [init])

end Pabu.Driver
