/-
  Driver.MESLazy — protocol command `meslazy`: the same arguments as `mes`, answered by the lazy
  model (`PabuModel/MESLazy.lean`: stored affordabilities, early `break`, permanent removals,
  optional binary-satisfaction shortcut `bin=1`).
-/
import Driver.Rules
import PabuModel.MESLazy
namespace Pabu.Driver
open Pabu

def cmdMesLazy (a : Args) : String :=
  let I := parseInst a
  let P := parseProfile a
  let V := mkVCtx a I P
  let init := parseIds (a.get "init")
  let order := mkOrder a I P
  let bin := a.get "bin" == "1"
  if a.has "inc" then
    let inc := ratD (a.get "inc")
    let fuel := natD (a.get "fuel")
    let b0 := I.budget / (MES.numVoters V : Nat)
    if a.get "res" == "0" then
      showOutcomes (MESLazy.iteratedAllLazy V I init order bin inc fuel b0 [init ++ MES.zeroCost V I init])
    else showOutcome (MESLazy.iteratedLazy V I init order bin inc fuel b0 (init ++ MES.zeroCost V I init))
  else if a.get "res" == "0" then showOutcomes (MESLazy.runAllLazy V I init order bin)
  else showOutcome (MESLazy.runLazy V I init order bin)

end Pabu.Driver
