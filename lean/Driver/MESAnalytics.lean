/-
  Driver.MESAnalytics — protocol command `mesanalytics`: the arguments of `mestrace` plus
  `bin=0|1` (binary-satisfaction shortcut) and `ord=<ids>` (iteration order of the implementation's
  project set = order of the project details of the first recorded iteration).  Answer:

    ok D:<iteration>|<iteration>|…  L:<record>|<record>|…  E:<id>=<int>,…

  iteration = `pool;discarded;priced;selected;before;after` (id lists and rationals comma-separated,
  `-` for "no selection"), record = `project;supporters_budget;q=lost,q=lost` (purchase order),
  E = effective support of every project of the instance.
  `err lazy-eager` if the lazy record and the eager record (`MES.trace`) disagree on the budgets,
  the selections or the prices (they never do: PabuProofs/Properties/C02Lazy.lean).
-/
import Driver.Rules
import PabuModel.MESAnalytics
namespace Pabu.Driver
open Pabu

def showOptId (o : Option Pid) : String :=
  match o with
  | some p => toString p
  | none => "-"

def showDetails (d : MESAnalytics.Details) : String :=
  String.intercalate ";" [showIds d.pool, showIds d.discarded, showIds d.priced, showOptId d.selected,
    showRats d.before, showRats d.after]

def showLoss (x : MESAnalytics.Loss) : String :=
  String.intercalate ";" [toString x.project, showRat x.supportersBudget,
    String.intercalate "," (x.budgetLost.map (fun e => toString e.1 ++ "=" ++ showRat e.2))]

def showEff (l : List (Pid × Int)) : String :=
  String.intercalate "," (l.map (fun e => toString e.1 ++ "=" ++ toString e.2))

def cmdMesAnalytics (a : Args) : String :=
  let I := parseInst a
  let P := parseProfile a
  let V := mkVCtx a I P
  let init := parseIds (a.get "init")
  let order := mkOrder a I P
  let bin := a.get "bin" == "1"
  let ord := (splitNE (a.get "ord") ",").map natD
  let b0 := if a.has "b0" then ratD (a.get "b0") else I.budget / (MES.numVoters V : Nat)
  match MESAnalytics.details V I init order bin b0 ord,
      MES.trace V I.cost order (MES.initPool V I init).length (MES.initState V I init b0) with
  | .error e, _ => "err " ++ e.toString
  | _, .error e => "err " ++ e.toString
  | .ok D, .ok L =>
    if (D.map (fun d => showIteration d.toIteration)) != L.map showIteration then "err lazy-eager"
    else
      let picked := init ++ MES.zeroCost V I init ++ L.filterMap (fun it => it.selected)
      match MESAnalytics.effectiveSupports V I init order b0 picked with
      | .error e => "err " ++ e.toString
      | .ok E =>
        "ok D:" ++ String.intercalate "|" (D.map showDetails) ++
          " L:" ++ String.intercalate "|" ((MESAnalytics.projectLossOfDetails V D).map showLoss) ++
          " E:" ++ showEff E

end Pabu.Driver
