/-
  Driver.Price — protocol commands for the price-system validator.
  `price B= P= T=app V= W=<ids> b=<rat> pf=<row>|<row> stable=0|1 exh=0|1` -> `ok <validate> <exact>`
     (one row of payments per profile entry, indexed by project id; entries are the voters, as
      `enumerate(profile)` sees them)
  `round2 x=<rat>` -> `ok <rat>`
-/
import Driver.Proto
import PabuModel.Price
namespace Pabu.Driver
open Pabu

def cmdPrice (a : Args) : String :=
  let I := parseInst a
  let P := parseProfile a
  let rows : List (List Rat) := (splitNE (a.get "pf") "|").map (fun r => (splitNE r ",").map ratD)
  let N : List Price.PVoter :=
    (List.range P.length).map (fun i =>
      { app := fun c => (P[i]?.map (fun e => e.1.mem c)).getD false,
        pay := fun c => (rows.getD i []).getD c 0 })
  let X : Price.Input :=
    { C := I.projects, cost := I.cost, budget := I.budget, W := parseIds (a.get "W"), N := N, b := ratD (a.get "b") }
  let st := a.get "stable" == "1"
  let ex := a.get "exh" == "1"
  "ok " ++ (if Price.validate X st ex then "1" else "0") ++ " " ++ (if Price.exact X st ex then "1" else "0")

def cmdRound2 (a : Args) : String := "ok " ++ showRat (Price.round2 (ratD (a.get "x")))

end Pabu.Driver
