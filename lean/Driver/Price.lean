/-
  Driver.Price — protocol commands for the price-system validator.
  `price B= P= T=app V= W=<ids> b=<rat> pf=<row>|<row> stable=0|1 exh=0|1` -> `ok <validate> <exact>`
     (one row of payments per profile entry, indexed by project id; entries are the voters, as
      `enumerate(profile)` sees them)
  `round2 x=<rat>` -> `ok <rat>`
  `pricerelax <as price> relax=mul|add|vec|vecpos|off|none beta=<rat> betav=<rat>,…(by project id)`
     -> `ok <validateRelaxed> <exactRelaxed> <id>:<relaxed cost>,…`
     (the relaxed validator with the relaxed-cost shape of the named relaxation class and its saved β)
-/
import Driver.Proto
import PabuModel.Price
namespace Pabu.Driver
open Pabu

def cmdPrice (a : Args) : String :=
  let I := parseInst a
  let P := parseProfile a
  let rows : List (List Rat) := (splitNE (a.get "pf") "|").map (fun r => (splitNE r ",").map ratD)
  let N : List Price.PVoter :=
    (List.range P.length).map (fun i =>
      { app := fun c => (P[i]?.map (fun e => e.1.mem c)).getD false,
        pay := fun c => (rows.getD i []).getD c 0 })
  let X : Price.Input :=
    { C := I.projects, cost := I.cost, budget := I.budget, W := parseIds (a.get "W"), N := N, b := ratD (a.get "b") }
  let st := a.get "stable" == "1"
  let ex := a.get "exh" == "1"
  "ok " ++ (if Price.validate X st ex then "1" else "0") ++ " " ++ (if Price.exact X st ex then "1" else "0")

def cmdRound2 (a : Args) : String := "ok " ++ showRat (Price.round2 (ratD (a.get "x")))

/-- the relaxed-cost function of a relaxation class with its saved β (`get_relaxed_cost`) -/
def relaxedCost (cost : Pid → Rat) (kind : String) (β : Rat) (βv : Pid → Rat) : Pid → Rat :=
  if kind == "mul" then Price.rcMinMul cost β
  else if kind == "add" then Price.rcMinAdd cost β
  else if kind == "vec" || kind == "vecpos" then Price.rcMinAddVector cost βv
  else if kind == "off" then Price.rcMinAddOffset cost β βv
  else cost

def cmdPriceRelax (a : Args) : String :=
  let I := parseInst a
  let P := parseProfile a
  let rows : List (List Rat) := (splitNE (a.get "pf") "|").map (fun r => (splitNE r ",").map ratD)
  let N : List Price.PVoter :=
    (List.range P.length).map (fun i =>
      { app := fun c => (P[i]?.map (fun e => e.1.mem c)).getD false,
        pay := fun c => (rows.getD i []).getD c 0 })
  let X : Price.Input :=
    { C := I.projects, cost := I.cost, budget := I.budget, W := parseIds (a.get "W"), N := N, b := ratD (a.get "b") }
  let st := a.get "stable" == "1"
  let ex := a.get "exh" == "1"
  let bv : List Rat := (splitNE (a.get "betav") ",").map ratD
  let rc := relaxedCost I.cost (a.get "relax") (ratD (a.get "beta")) (fun c => bv.getD c 0)
  "ok " ++ (if Price.validateRelaxed X rc st ex then "1" else "0") ++ " " ++
    (if Price.exactRelaxed X rc st ex then "1" else "0") ++ " " ++
    ",".intercalate (I.projects.map (fun c => toString c ++ ":" ++ showRat (rc c)))

end Pabu.Driver
