/-
  Driver.PriceMIPRelax — protocol commands for the program `priceable(..., relaxation=R)` builds.
  `pricemiprelax B= P= T=app V= relax=mul|add|vec|vecpos|off stable=0|1 exh=0|1 given=0|1 W=<ids> [fb=<rat>] [pf=<row>|<row>]`
     -> `ok <var>:<B|C>:<lb>,… <name>:<coef>*<var>+…:<le|ge|eq>:<rhs>|… min:<coef>*<var>+…`
  variables: those of `pricemip` plus `beta`, `beta.<id>`; rows printed raw (terms in the order of the code, not merged);
  the last field is the objective (always a minimisation).
  `pricemiprelaxsat <as pricemiprelax> b= p=<row>|<row> x= r= m= beta=<rat> betav=<rat>,…(by project id)`
     -> `ok <rsat> <exactRelaxed of the point read as a price system, with the relaxed costs get_relaxed_cost gives>
            <get_beta> <objective value at the point> <id>:<relaxed cost>,…`
-/
import Driver.Proto
import Driver.PriceMIP
import PabuModel.PriceMIPRelax
namespace Pabu.Driver
open Pabu Pabu.PriceMIP

def pmrShowVar (v : RVar) : String :=
  match v with
  | .base w => showVar w
  | .beta => "beta"
  | .betac c => s!"beta.{c}"

def pmrShowTerms (ts : List (Rat × RVar)) : String :=
  "+".intercalate (ts.map (fun t => showRat t.1 ++ "*" ++ pmrShowVar t.2))

def pmrShowConstr (k : RConstr) : String :=
  k.name ++ ":" ++ pmrShowTerms k.terms ++ ":" ++ showSense k.sense ++ ":" ++ showRat k.rhs

def pmrShowDecl (d : RVarDecl) : String :=
  pmrShowVar d.v ++ ":" ++ (if d.binary then "B" else "C") ++ ":" ++ showRat d.lb

def pmrKind (s : String) : Relax :=
  if s == "mul" then .mul else if s == "add" then .add else if s == "vec" then .vec
  else if s == "vecpos" then .vecpos else .off

def pmrElec (a : Args) : Elec :=
  let I := parseInst a
  let P := parseProfile a
  { C := I.projects, cost := I.cost, budget := I.budget, apps := P.map (fun e => fun c => e.1.mem c) }

def pmrCfg (a : Args) : Cfg :=
  let rows : List (List Rat) := (splitNE (a.get "pf") "|").map (fun r => (splitNE r ",").map ratD)
  { stable := a.get "stable" == "1", exhaustive := a.get "exh" == "1",
    given := if a.get "given" == "1" then some (parseIds (a.get "W")) else none,
    fixB := if a.has "fb" then some (ratD (a.get "fb")) else none,
    fixP := if a.has "pf" then some (fun i c => (rows.getD i []).getD c 0) else none }

def cmdPriceMIPRelax (a : Args) : String :=
  let E := pmrElec a
  let cfg := pmrCfg a
  let R := pmrKind (a.get "relax")
  let P := rprogram E R cfg
  "ok " ++ ",".intercalate (P.vars.map pmrShowDecl) ++ " " ++ "|".intercalate (P.cons.map pmrShowConstr)
    ++ " min:" ++ pmrShowTerms P.obj

def cmdPriceMIPRelaxSat (a : Args) : String :=
  let E := pmrElec a
  let cfg := pmrCfg a
  let R := pmrKind (a.get "relax")
  let prow : List (List Rat) := (splitNE (a.get "p") "|").map (fun r => (splitNE r ",").map ratD)
  let xs : List Rat := (splitNE (a.get "x") ",").map ratD
  let rs : List Rat := (splitNE (a.get "r") ",").map ratD
  let ms : List Rat := (splitNE (a.get "m") ",").map ratD
  let bv : List Rat := (splitNE (a.get "betav") ",").map ratD
  let pt : Point :=
    { b := ratD (a.get "b"), p := fun i c => (prow.getD i []).getD c 0, x := fun c => xs.getD c 0,
      r := fun i => rs.getD i 0, m := fun i => ms.getD i 0 }
  let rp : RPoint := { base := pt, beta := ratD (a.get "beta"), betac := fun c => bv.getD c 0 }
  let rc := rcOf E R rp
  "ok " ++ (if rsat E R cfg rp then "1" else "0") ++ " "
    ++ (if Price.exactRelaxed (toInput E pt) rc cfg.stable cfg.exhaustive then "1" else "0") ++ " "
    ++ showRat (getBeta E R rp) ++ " " ++ showRat ((rprogram E R cfg).objective rp) ++ " "
    ++ ",".intercalate (E.C.map (fun c => toString c ++ ":" ++ showRat (rc c)))

end Pabu.Driver
