/-
  Driver.PriceMIP — protocol command for the program `priceable()` builds.
  `pricemip B= P= T=app V= stable=0|1 exh=0|1 given=0|1 W=<ids> [fb=<rat>] [pf=<row>|<row>]`
     -> `ok <var>:<B|C>,… <name>:<coef>*<var>+…:<le|ge|eq>:<rhs>|…`
  variables: `b`, `p.<idx>.<id>`, `x.<id>`, `r.<idx>`, `m.<idx>`; one voter per profile entry (`enumerate(profile)`).
  The constraints are printed raw (terms in the order of the code, not merged); the harness canonicalises both sides.
-/
import Driver.Proto
import PabuModel.PriceMIP
namespace Pabu.Driver
open Pabu Pabu.PriceMIP

def showVar (v : Var) : String :=
  match v with
  | .b => "b"
  | .p i c => s!"p.{i}.{c}"
  | .x c => s!"x.{c}"
  | .r i => s!"r.{i}"
  | .m i => s!"m.{i}"

def showSense (s : Sense) : String :=
  match s with
  | .le => "le"
  | .ge => "ge"
  | .eq => "eq"

def showConstr (k : Constr) : String :=
  k.name ++ ":" ++ "+".intercalate (k.terms.map (fun t => showRat t.1 ++ "*" ++ showVar t.2)) ++ ":" ++ showSense k.sense ++ ":" ++ showRat k.rhs

def showDecl (d : VarDecl) : String := showVar d.v ++ ":" ++ (if d.binary then "B" else "C")

def cmdPriceMIP (a : Args) : String :=
  let I := parseInst a
  let P := parseProfile a
  let E : Elec := { C := I.projects, cost := I.cost, budget := I.budget, apps := P.map (fun e => fun c => e.1.mem c) }
  let rows : List (List Rat) := (splitNE (a.get "pf") "|").map (fun r => (splitNE r ",").map ratD)
  let cfg : Cfg :=
    { stable := a.get "stable" == "1", exhaustive := a.get "exh" == "1",
      given := if a.get "given" == "1" then some (parseIds (a.get "W")) else none,
      fixB := if a.has "fb" then some (ratD (a.get "fb")) else none,
      fixP := if a.has "pf" then some (fun i c => (rows.getD i []).getD c 0) else none }
  "ok " ++ ",".intercalate ((vars E cfg.stable).map showDecl) ++ " " ++ "|".intercalate ((constraints E cfg).map showConstr)

/-- `pricemipsat <as pricemip> b=<rat> p=<row>|<row> x=<rat>,… r=<rat>,… m=<rat>,…` -> `ok <sat> <exact of the point read as a price system>` -/
def cmdPriceMIPSat (a : Args) : String :=
  let I := parseInst a
  let P := parseProfile a
  let E : Elec := { C := I.projects, cost := I.cost, budget := I.budget, apps := P.map (fun e => fun c => e.1.mem c) }
  let rows : List (List Rat) := (splitNE (a.get "pf") "|").map (fun r => (splitNE r ",").map ratD)
  let cfg : Cfg :=
    { stable := a.get "stable" == "1", exhaustive := a.get "exh" == "1",
      given := if a.get "given" == "1" then some (parseIds (a.get "W")) else none,
      fixB := if a.has "fb" then some (ratD (a.get "fb")) else none,
      fixP := if a.has "pf" then some (fun i c => (rows.getD i []).getD c 0) else none }
  let prow : List (List Rat) := (splitNE (a.get "p") "|").map (fun r => (splitNE r ",").map ratD)
  let xs : List Rat := (splitNE (a.get "x") ",").map ratD
  let rs : List Rat := (splitNE (a.get "r") ",").map ratD
  let ms : List Rat := (splitNE (a.get "m") ",").map ratD
  let pt : Point :=
    { b := ratD (a.get "b"), p := fun i c => (prow.getD i []).getD c 0, x := fun c => xs.getD c 0,
      r := fun i => rs.getD i 0, m := fun i => ms.getD i 0 }
  "ok " ++ (if PriceMIP.sat E cfg pt then "1" else "0") ++ " " ++ (if Price.exact (toInput E pt) cfg.stable cfg.exhaustive then "1" else "0")

end Pabu.Driver
