/-
  Driver.Containers — protocol command `ops` (C17): `ops C=<class> O=op,op,…`
  answers `ok b,b,…` — for every step whether the table model (regenerated rows) predicts that class and
  attributes of the source survive.
-/
import Driver.Proto
import PabuModel.Containers
import Gen.Containers
namespace Pabu.Driver
open Pabu.Containers

def cmdOps (a : Args) : String :=
  match Pabu.Gen.containerRows.find? (fun r => r.name == a.get "C") with
  | none => "err key"
  | some r =>
    let ops := splitNE (a.get "O") ","
    "ok " ++ String.intercalate "," (ops.map (fun op => if predict Pabu.Gen.containerRows r op then "1" else "0"))

end Pabu.Driver
