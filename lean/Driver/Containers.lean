/-
  Driver.Containers — protocol command `ops` (C17): `ops C=<class> O=op,op,…`
  answers `ok b,b,…` — for every step whether the table model (regenerated rows) predicts that class and
  attributes of the source survive.
-/
import Driver.Proto
import PabuModel.Containers
import Gen.Containers
import PabuModel.CounterArith
namespace Pabu.Driver
open Pabu.Containers

def cmdOps (a : Args) : String :=
  match Pabu.Gen.containerRows.find? (fun r => r.name == a.get "C") with
  | none => "err key"
  | some r =>
    let ops := splitNE (a.get "O") ","
    "ok " ++ String.intercalate "," (ops.map (fun op => if predict Pabu.Gen.containerRows r op then "1" else "0"))

/-- `counter op=add|sub|or|and|pos|neg A=k:n,k:n,… B=k:n,… [V=k.k.k]`: the arithmetic of `collections.Counter` on counters given in
    insertion order (keys are numbers, counts any integers); answers `ok k:n,k:n,…` in the order of the result.  With `V=` (the keys
    of the right ballot type) the answer is that of the re-validating wrapper: `err type` if the result holds any other key. -/
def parseCounter (s : String) : Pabu.CounterArith.Counter Nat :=
  (splitNE s ",").map (fun t => match t.splitOn ":" with
    | [k, n] => (natD k, (n.toInt?).getD 0)
    | _ => (0, 0))

def showCounter (c : Pabu.CounterArith.Counter Nat) : String :=
  if c.isEmpty then "-" else String.intercalate "," (c.map (fun e => s!"{e.1}:{e.2}"))

def cmdCounter (a : Args) : String :=
  let A := parseCounter (a.get "A")
  let B := parseCounter (a.get "B")
  let r : Pabu.CounterArith.Counter Nat :=
    match a.get "op" with
    | "add" => Pabu.CounterArith.add A B
    | "sub" => Pabu.CounterArith.sub A B
    | "or" => Pabu.CounterArith.union A B
    | "and" => Pabu.CounterArith.inter A B
    | "pos" => Pabu.CounterArith.pos A
    | _ => Pabu.CounterArith.neg A
  if a.has "V" then
    let ok := parseIds (a.get "V")
    match Pabu.CounterArith.validate (fun k => ok.contains k) r with
    | .ok r => "ok " ++ showCounter r
    | .error e => "err " ++ e.toString
  else "ok " ++ showCounter r

end Pabu.Driver
